#!/usr/bin/env python3
"""Regenerates /verif/MANIFEST.json from tools/claims.json (the list of armed checks)."""
import json, os
D = os.path.dirname(os.path.dirname(os.path.abspath(__file__)))
claims = json.load(open(os.path.join(D, 'tools', 'claims.json')))
props = [json.loads(l) for l in open(os.path.join(D, 'properties.jsonl'))]
checks, na = [], []
for p in props:
    c = claims['claimed'].get(p['id'])
    if c:
        checks.append({
            "property_id": p['id'],
            "quick_cmd": "./check %s quick" % p['id'],
            "thorough_cmd": "./check %s thorough" % p['id'],
            "evidence_file": "/verif/evidence/%s.json" % p['id'],
            "replay_cmd_template": "./check %s quick --replay {path}" % p['id'],
            "engine": "verifcheck",
            "level_claimed": {"category": "other", "text": c['text'], "design_ref": "DESIGN.md section 3, " + p['id']},
            "level_note": c['note'],
            "technique": c['technique'],
        })
    else:
        na.append({"property_id": p['id'], "reason": claims['not_applicable'].get(p['id'], "structural slice not armed yet; the remainder of the statement quantifies over runtime values that no sound static argument in reach can bound")})
m = {
    "version": 1,
    "setup_cmd": "cd /verif/checker && GOFLAGS=-mod=mod GOPROXY=off GOSUMDB=off GOTOOLCHAIN=local GOWORK=off go build -o /verif/bin/verifcheck .",
    "hooks": {"guard": "verif", "enable": "not used: static analysis of the source needs no instrumentation; no hook commits exist", "baseline_off_cmd": json.load(open('/root/.vp/BASELINE.json'))['cmd'], "source_commits": [], "add_only": True},
    "engines": [{"name": "verifcheck", "path": "/verif/checker", "serves_properties": sorted(claims['claimed'].keys()), "kind_free_text": "repository-specific static analyser: go/packages + go/types + go/ssa of /repo's working tree; call-site census, path-state (guard/ordering) analysis over the SSA CFG, AST idiom classifiers, algebraic normal forms, cross-language ABI signature comparison"}],
    "checks": checks,
    "notes": claims.get('notes', ''),
    "not_applicable": na,
}
json.dump(m, open(os.path.join(D, 'MANIFEST.json'), 'w'), indent=1)
print("claimed", len(checks), "not_applicable", len(na))
