#!/bin/sh
# tools/try_seed.sh <seed-dir-name> <check-id>... : run checks against a seeded change in a scratch worktree
# (neither /repo's working tree nor /verif/evidence is touched). BIN=<binary> overrides the checker binary.
set -e
S="$1"; shift
export GOFLAGS=-mod=mod GOPROXY=off GOSUMDB=off GOTOOLCHAIN=local; unset GOWORK
W=/tmp/tryseed/$S.$$; V=/tmp/tryseed/v.$S.$$
mkdir -p /tmp/tryseed "$V/evidence"; cp /verif/known_findings.json "$V/"
git -C /repo worktree add --detach "$W" HEAD -q
trap 'git -C /repo worktree remove --force "$W" 2>/dev/null; rm -rf "$W" "$V"; git -C /repo worktree prune' EXIT
git -C "$W" apply "/verif/seeded/$S/patch.diff"
for c in "$@"; do
  echo "== $S / $c"
  ${BIN:-/verif/bin/verifcheck} "$c" quick --repo "$W" --verif "$V" 2>&1 | grep -a "VIOLATION\|quick:\|BROKEN\|^  at\|^  [a-zA-Z0-9\[]" | cut -c1-260 | head -${LINES_MAX:-8}
done
