#!/usr/bin/env python3
"""Confirm the seeded breaking changes of /verif/seeded/<id>/ against /repo's current HEAD.

For each id, in a scratch git worktree under /tmp (removed afterwards):
  1. the patch applies and the tree builds;
  2. the demonstration test FAILS with the patch and PASSES without it;
  3. the repository's own test suite (go test ./..., demonstration removed) passes with the patch.
The outcome is written to seeded/<id>/meta.json under "confirmed". Documentation only: no
registered check runs this.

usage: confirm_seeded.py [--jobs N] [--no-suite] [ID ...]
"""
import json, os, shutil, subprocess, sys, time
from concurrent.futures import ThreadPoolExecutor

VERIF = os.path.dirname(os.path.dirname(os.path.abspath(__file__)))
REPO = "/repo"
ENV = dict(os.environ, GOFLAGS="-mod=mod", GOPROXY="off", GOSUMDB="off", GOTOOLCHAIN="local")
ENV.pop("GOWORK", None)


def sh(cmd, cwd, timeout=3000):
    p = subprocess.run(cmd, cwd=cwd, shell=True, env=ENV, stdout=subprocess.PIPE, stderr=subprocess.STDOUT, text=True, timeout=timeout)
    return p.returncode, p.stdout


def confirm(pid, suite=True):
    d = os.path.join(VERIF, "seeded", pid)
    meta = json.load(open(os.path.join(d, "meta.json")))
    wt = f"/tmp/seedwt/{pid}"
    res = {"at_repo_head": sh("git rev-parse --short HEAD", REPO)[1].strip(), "when": time.strftime("%Y-%m-%d %H:%M:%S"), "steps": []}
    step = lambda name, ok, note="": res["steps"].append({"step": name, "ok": bool(ok), "note": note[-600:]})
    try:
        shutil.rmtree(wt, ignore_errors=True)
        sh(f"git worktree prune", REPO)
        rc, out = sh(f"git worktree add --detach {wt} HEAD", REPO)
        if rc != 0:
            step("worktree", False, out)
            return pid, res
        patch = os.path.join(d, "patch.diff")
        rc, out = sh(f"git apply --check {patch} && git apply {patch}", wt)
        step("patch applies at HEAD", rc == 0, out)
        if rc != 0:
            return pid, res
        rc, out = sh("go build ./...", wt)
        step("go build ./... with the patch", rc == 0, out)
        if rc != 0:
            return pid, res
        demo = meta["demo"]
        cmd = demo["cmd"].split("#")[0].strip()
        if suite:
            rc, out = sh("go test -vet=off -count=1 -timeout 25m ./... 2>&1 | grep -v 'no test files' | grep -v '^ok' | tail -20", wt)
            fails = [l for l in out.splitlines() if l.strip()]
            note = out
            if fails:
                # a package that fails only under machine load (socket / timing tests) is re-run alone once
                pk = sorted({l.split()[1] for l in fails if l.startswith("FAIL\t") and len(l.split()) > 1})
                if pk:
                    for attempt in range(3):
                        rc2, out2 = sh("go test -vet=off -count=1 " + " ".join(pk) + " 2>&1 | tail -5", wt)
                        if all(l.startswith("ok") for l in out2.splitlines() if l.strip()):
                            fails = []
                            note = "failed under load, passed when re-run alone: " + " ".join(pk)
                            break
            step("unedited test suite passes with the patch (go test ./...)", len(fails) == 0, note)
        for src, dst in demo["files"].items():
            shutil.copy(os.path.join(d, src), os.path.join(wt, dst))
        rc, out = sh(cmd, wt)
        step("demonstration FAILS with the patch", rc != 0 and ("FAIL" in out or "panic" in out or "fatal error" in out), "\n".join(out.splitlines()[-12:]))
        rc, out = sh(f"git apply -R {patch}", wt)
        step("patch reverts", rc == 0, out)
        rc, out = sh(cmd, wt)
        step("demonstration PASSES without the patch", rc == 0, "\n".join(out.splitlines()[-6:]))
    except Exception as e:  # noqa
        step("exception", False, repr(e))
    finally:
        sh(f"git worktree remove --force {wt}", REPO)
        shutil.rmtree(wt, ignore_errors=True)
        sh("git worktree prune", REPO)
    res["confirmed"] = all(s["ok"] for s in res["steps"])
    meta["confirmed"] = res
    json.dump(meta, open(os.path.join(d, "meta.json"), "w"), indent=2)
    return pid, res


def main():
    args = sys.argv[1:]
    jobs, suite = 3, True
    ids = []
    i = 0
    while i < len(args):
        if args[i] == "--jobs":
            jobs = int(args[i + 1]); i += 2; continue
        if args[i] == "--no-suite":
            suite = False; i += 1; continue
        ids.append(args[i]); i += 1
    if not ids:
        ids = sorted(os.listdir(os.path.join(VERIF, "seeded")))
    os.makedirs("/tmp/seedwt", exist_ok=True)
    with ThreadPoolExecutor(jobs) as ex:
        for pid, res in ex.map(lambda p: confirm(p, suite), ids):
            print(pid, "CONFIRMED" if res.get("confirmed") else "NOT CONFIRMED")
            for s in res["steps"]:
                if not s["ok"]:
                    print("   failed:", s["step"], "|", s["note"].replace("\n", " / ")[-300:])
            sys.stdout.flush()


if __name__ == "__main__":
    main()
