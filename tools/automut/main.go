// automut generates one-statement mutants (overlay files) of the functions a check analysed.
//
//	go run . <ID> <out-dir>     reads /verif/evidence/<ID>.json (functions_analysed) and /repo sources
//
// Operators: DEL-CALL (a call statement is deleted), DEL-ERRCALL (`err = f(..)` or `x, err := f(..)`-less
// forms followed by the error test are deleted together; `if err := f(..); err != nil {..}` is deleted),
// GUARD-OFF (the condition of an `if` that ends in return/continue/break/panic and has no else becomes false),
// RET-EARLY (a success return `return nil` / `continue` is inserted in front of a call statement).
// The mutants are for triage of the checks (tools/automut.sh): a silent one is either behaviour the property
// does not speak about or a gap in the check. Nothing registered in MANIFEST.json uses this tool.
package main

import (
	"encoding/json"
	"fmt"
	"go/ast"
	"go/parser"
	"go/token"
	"os"
	"path/filepath"
	"strings"
)

type edit struct {
	File string `json:"file"`
	Old  string `json:"old"`
	New  string `json:"new"`
}
type spec struct {
	Name     string `json:"name"`
	Property string `json:"property"`
	Expect   string `json:"expect"`
	Why      string `json:"why"`
	Edits    []edit `json:"edits"`
}

func main() {
	id, out := os.Args[1], os.Args[2]
	repo := "/repo"
	if len(os.Args) > 3 {
		repo = os.Args[3]
	}
	var ev struct {
		Coverage struct {
			Functions []string `json:"functions_analysed"`
		} `json:"coverage"`
	}
	b, err := os.ReadFile("/verif/evidence/" + id + ".json")
	if err != nil {
		panic(err)
	}
	if err := json.Unmarshal(b, &ev); err != nil {
		panic(err)
	}
	os.MkdirAll(out, 0o755)
	n := 0
	for _, f := range ev.Coverage.Functions {
		// "(x/oracle/keeper.Keeper).SetValue"  or  "x/registry/types.DecodeValue"
		var dir, recv, name string
		if strings.HasPrefix(f, "(") {
			i := strings.Index(f, ")")
			inner := strings.TrimLeft(f[1:i], "*")
			j := strings.LastIndex(inner, ".")
			dir, recv, name = inner[:j], inner[j+1:], strings.TrimPrefix(f[i+1:], ".")
		} else {
			j := strings.LastIndex(f, ".")
			dir, name = f[:j], f[j+1:]
		}
		if strings.Contains(name, "$") || strings.Contains(name, "#") {
			continue
		}
		files, _ := filepath.Glob(repo + "/" + dir + "/*.go")
		for _, path := range files {
			if strings.HasSuffix(path, "_test.go") || strings.HasSuffix(path, ".pb.go") || strings.HasSuffix(path, ".pb.gw.go") {
				continue
			}
			src, err := os.ReadFile(path)
			if err != nil {
				continue
			}
			fset := token.NewFileSet()
			af, err := parser.ParseFile(fset, path, src, parser.ParseComments)
			if err != nil {
				continue
			}
			for _, d := range af.Decls {
				fd, ok := d.(*ast.FuncDecl)
				if !ok || fd.Body == nil || fd.Name.Name != name {
					continue
				}
				r := ""
				if fd.Recv != nil && len(fd.Recv.List) == 1 {
					t := fd.Recv.List[0].Type
					if s, ok := t.(*ast.StarExpr); ok {
						t = s.X
					}
					if idt, ok := t.(*ast.Ident); ok {
						r = idt.Name
					}
				}
				if r != recv {
					continue
				}
				rel, _ := filepath.Rel(repo, path)
				m := &mut{id: id, src: string(src), fset: fset, rel: rel, fn: f, out: out, n: &n, fd: fd}
				if os.Getenv("AUTOMUT_OPS") == "expr" {
					m.exprs(fd.Body)
				} else {
					m.block(fd.Body, false)
				}
			}
		}
	}
	fmt.Printf("%s: %d mutants in %s\n", id, n, out)
}

type mut struct {
	id, src, rel, fn, out string
	fset                  *token.FileSet
	n                     *int
	fd                    *ast.FuncDecl
}

func (m *mut) off(p token.Pos) int { return m.fset.Position(p).Offset }

func (m *mut) emit(op string, a, b int, repl string, line int) {
	// grow the anchor backwards until it is unique in the file
	k := 0
	for {
		s := a - k
		if s < 0 {
			return
		}
		old := m.src[s:b]
		if strings.Count(m.src, old) == 1 {
			*m.n++
			sp := spec{Name: fmt.Sprintf("%s-%04d-%s-L%d", m.id, *m.n, op, line), Property: m.id, Expect: "", Why: fmt.Sprintf("%s at %s:%d in %s", op, m.rel, line, m.fn),
				Edits: []edit{{File: m.rel, Old: old, New: m.src[s:a] + repl}}}
			bb, _ := json.MarshalIndent(sp, "", " ")
			os.WriteFile(filepath.Join(m.out, sp.Name+".json"), bb, 0o644)
			return
		}
		k += 8
		if k > 4000 {
			return
		}
	}
}

func endsInJump(b *ast.BlockStmt) bool {
	if len(b.List) == 0 {
		return false
	}
	switch x := b.List[len(b.List)-1].(type) {
	case *ast.ReturnStmt:
		return true
	case *ast.BranchStmt:
		return x.Tok == token.CONTINUE || x.Tok == token.BREAK
	case *ast.ExprStmt:
		if c, ok := x.X.(*ast.CallExpr); ok {
			if idt, ok := c.Fun.(*ast.Ident); ok && idt.Name == "panic" {
				return true
			}
		}
	}
	return false
}

func isErrNotNil(e ast.Expr) bool {
	be, ok := e.(*ast.BinaryExpr)
	if !ok || be.Op != token.NEQ {
		return false
	}
	x, ok1 := be.X.(*ast.Ident)
	y, ok2 := be.Y.(*ast.Ident)
	return ok1 && ok2 && x.Name == "err" && y.Name == "nil"
}

func (m *mut) successReturn() string {
	res := m.fd.Type.Results
	if res == nil || len(res.List) == 0 {
		return "return"
	}
	var parts []string
	for _, f := range res.List {
		cnt := len(f.Names)
		if cnt == 0 {
			cnt = 1
		}
		for i := 0; i < cnt; i++ {
			ts := m.src[m.off(f.Type.Pos()):m.off(f.Type.End())]
			switch {
			case ts == "error":
				parts = append(parts, "nil")
			case strings.HasPrefix(ts, "*") || strings.HasPrefix(ts, "[]") || strings.HasPrefix(ts, "map["):
				parts = append(parts, "nil")
			case ts == "bool":
				parts = append(parts, "false")
			case ts == "string":
				parts = append(parts, `""`)
			case strings.HasPrefix(ts, "uint") || strings.HasPrefix(ts, "int") || ts == "float64":
				parts = append(parts, "0")
			default:
				parts = append(parts, ts+"{}")
			}
		}
	}
	return "return " + strings.Join(parts, ", ")
}

// exprs generates expression-level mutants inside one function body: relational boundary (< <=, > >=, and the
// math.Int / Dec / time method pairs), + / - (Add / Sub), and swaps of two adjacent call arguments.
func (m *mut) exprs(body *ast.BlockStmt) {
	relTok := map[token.Token]string{token.LSS: "<=", token.LEQ: "<", token.GTR: ">=", token.GEQ: ">", token.ADD: "-", token.SUB: "+"}
	relSel := map[string]string{"GT": "GTE", "GTE": "GT", "LT": "LTE", "LTE": "LT", "Add": "Sub", "Sub": "Add", "After": "Before", "Before": "After", "IsPositive": "IsNegative", "Mul": "Quo", "Quo": "Mul"}
	ast.Inspect(body, func(n ast.Node) bool {
		switch x := n.(type) {
		case *ast.FuncLit:
			return true
		case *ast.BinaryExpr:
			if r, ok := relTok[x.Op]; ok {
				if bl, isLit := x.X.(*ast.BasicLit); isLit && bl.Kind == token.STRING {
					return true
				}
				line := m.fset.Position(x.OpPos).Line
				m.emit("OP-"+x.Op.String()+"to"+r, m.off(x.OpPos), m.off(x.OpPos)+len(x.Op.String()), r, line)
			}
		case *ast.CallExpr:
			if sel, ok := x.Fun.(*ast.SelectorExpr); ok {
				if r, ok := relSel[sel.Sel.Name]; ok {
					line := m.fset.Position(sel.Sel.Pos()).Line
					m.emit("SEL-"+sel.Sel.Name+"to"+r, m.off(sel.Sel.Pos()), m.off(sel.Sel.End()), r, line)
				}
			}
			for i := 0; i+1 < len(x.Args); i++ {
				a, b := x.Args[i], x.Args[i+1]
				as, bs := m.src[m.off(a.Pos()):m.off(a.End())], m.src[m.off(b.Pos()):m.off(b.End())]
				if as == bs || as == "ctx" || as == "goCtx" {
					continue
				}
				line := m.fset.Position(a.Pos()).Line
				m.emit(fmt.Sprintf("ARG-SWAP%d", i), m.off(a.Pos()), m.off(b.End()), bs+m.src[m.off(a.End()):m.off(b.Pos())]+as, line)
			}
		}
		return true
	})
}

func (m *mut) block(b *ast.BlockStmt, inLoop bool) {
	for i, st := range b.List {
		line := m.fset.Position(st.Pos()).Line
		switch x := st.(type) {
		case *ast.ExprStmt:
			if _, ok := x.X.(*ast.CallExpr); ok {
				m.emit("DEL-CALL", m.off(x.Pos()), m.off(x.End()), "", line)
				if inLoop {
					m.emit("RET-EARLY", m.off(x.Pos()), m.off(x.Pos()), "if true {\ncontinue\n}\n", line)
				}
			}
		case *ast.AssignStmt:
			// err = f(...) ; if err != nil {...}
			if len(x.Lhs) == 1 && len(x.Rhs) == 1 {
				if idt, ok := x.Lhs[0].(*ast.Ident); ok && idt.Name == "err" {
					if _, ok := x.Rhs[0].(*ast.CallExpr); ok && i+1 < len(b.List) {
						if nx, ok := b.List[i+1].(*ast.IfStmt); ok && nx.Init == nil && isErrNotNil(nx.Cond) && nx.Else == nil {
							if x.Tok == token.ASSIGN {
								m.emit("DEL-ERRCALL", m.off(x.Pos()), m.off(nx.End()), "", line)
							} else {
								m.emit("DEL-ERRCALL", m.off(x.Pos()), m.off(nx.End()), "var err error\n_ = err", line)
							}
							m.emit("RET-EARLY", m.off(x.Pos()), m.off(x.Pos()), "if true {\n"+m.retOrContinue(inLoop)+"\n}\n", line)
						}
					}
				}
			}
		case *ast.IfStmt:
			if x.Init != nil && isErrNotNil(x.Cond) && x.Else == nil {
				if as, ok := x.Init.(*ast.AssignStmt); ok && len(as.Lhs) == 1 {
					m.emit("DEL-ERRCALL", m.off(x.Pos()), m.off(x.End()), "", line)
					m.emit("RET-EARLY", m.off(x.Pos()), m.off(x.Pos()), "if true {\n"+m.retOrContinue(inLoop)+"\n}\n", line)
				}
			} else if x.Else == nil && endsInJump(x.Body) && !isErrNotNil(x.Cond) {
				m.emit("GUARD-OFF", m.off(x.Cond.Pos()), m.off(x.Cond.End()), "false && ("+m.src[m.off(x.Cond.Pos()):m.off(x.Cond.End())]+")", line)
			}
			m.block(x.Body, inLoop)
			if e, ok := x.Else.(*ast.BlockStmt); ok {
				m.block(e, inLoop)
			} else if e, ok := x.Else.(*ast.IfStmt); ok {
				m.block(&ast.BlockStmt{List: []ast.Stmt{e}}, inLoop)
			}
		case *ast.ForStmt:
			m.block(x.Body, true)
		case *ast.RangeStmt:
			m.block(x.Body, true)
		case *ast.BlockStmt:
			m.block(x, inLoop)
		case *ast.SwitchStmt:
			for _, c := range x.Body.List {
				if cc, ok := c.(*ast.CaseClause); ok {
					m.block(&ast.BlockStmt{List: cc.Body}, inLoop)
				}
			}
		}
	}
}

func (m *mut) retOrContinue(inLoop bool) string {
	if inLoop {
		return "continue"
	}
	return m.successReturn()
}
