module automut

go 1.22
