#!/usr/bin/env python3
"""Print the DESIGN.md 0.1 status table from the current evidence files, mutants and benign variants."""
import json, glob, os, collections
V = os.path.dirname(os.path.dirname(os.path.abspath(__file__)))
print("| id | rules (obligations today) | functions analysed | breaking / behaviour-preserving variants |")
print("|----|---------------------------|--------------------|------------------------------------------|")
for f in sorted(glob.glob(os.path.join(V, "evidence", "C*.json"))):
    e = json.load(open(f)); c = e["coverage"]; pid = e["property_id"]
    cnt = collections.Counter(o["rule"] for o in c["samples"])
    rules = " ".join(f"{k}·{v}" for k, v in sorted(cnt.items()))
    m = len(glob.glob(os.path.join(V, "mutants", pid, "*.json"))); b = len(glob.glob(os.path.join(V, "benign", pid, "*.json")))
    print(f"| {pid} | {rules} ({c['obligations']}) | {c['functions_count']} | {m} / {b} |")
