#!/bin/sh
# tools/repro.sh <Dn> <repo-dir> <pkg-dir-in-repo> <go test -run pattern>
# Runs the probe tests of /verif/repro/<Dn> inside the named package of <repo-dir> through
# `go test -overlay`, so that no file is written into the repository. Documentation of the
# findings only: no registered check runs this.
set -e
D="$1"; R="$2"; PKG="$3"; PAT="$4"
export GOFLAGS=-mod=mod GOPROXY=off GOSUMDB=off GOTOOLCHAIN=local; unset GOWORK
T=$(mktemp -d)
python3 - "$D" "$R" "$PKG" "$T" <<'PY'
import sys, json, glob, os
d, r, pkg, t = sys.argv[1:5]
rep = {}
for f in glob.glob(f'/verif/repro/{d}/*_test.go'):
    rep[os.path.join(r, pkg, os.path.basename(f))] = f
json.dump({"Replace": rep}, open(os.path.join(t, 'overlay.json'), 'w'))
PY
cd "$R" && go test -vet=off -count=1 -overlay "$T/overlay.json" -run "$PAT" "./$PKG/" 2>&1 | tail -${TAIL:-25}
rm -rf "$T"
