#!/bin/sh
# tools/refactor_matrix.sh: run every check against every behaviour-preserving refactoring in /verif/refactorings/*.diff
# (80 refactorings written by sub-agents, four per property; each was built and passed the existing tests) and write
# refactorings/RESULTS.md. Expected: every line "silent"; the others are false alarms (or refusals) still open.
# Documentation only: no registered check runs this.
cd "$(dirname "$0")/.."
OUT=refactorings/RESULTS.md
echo "# Behaviour-preserving refactorings x checks" > $OUT
echo "" >> $OUT
echo "Produced by tools/refactor_matrix.sh at /repo HEAD $(git -C /repo rev-parse --short HEAD). A refactoring is *silent* when all 20 checks exit 0 on it." >> $OUT
echo "" >> $OUT
echo "| refactoring | verdict |" >> $OUT
echo "|---|---|" >> $OUT
S=0; N=0
for f in refactorings/*.diff; do
  L=$(LINES_MAX=1 tools/try_diff.sh "$f" 2>&1 | head -1)
  N=$((N+1))
  case "$L" in *"all 20 checks silent"*) S=$((S+1)); V="silent";; *) V=$(echo "$L" | sed 's/^== [^:]*: //; s/ALL-RESULT //g');; esac
  echo "| $(basename $f .diff) | $V |" >> $OUT
done
echo "" >> $OUT
echo "$S of $N silent." >> $OUT
tail -1 $OUT
