#!/bin/sh
# tools/try_diff.sh <patch-file> [label]: apply a patch in a scratch worktree of /repo's HEAD and run every check on it
# (verifcheck ALL, one load). Prints the checks that do not exit 0 with their violations. Neither /repo's working tree nor
# /verif/evidence is touched. Used to try behaviour-preserving refactorings (expected: nothing printed but the summary).
set -e
PATCH="$(cd "$(dirname "$1")" && pwd)/$(basename "$1")"; L="${2:-$(basename "$1")}"
export GOFLAGS=-mod=mod GOPROXY=off GOSUMDB=off GOTOOLCHAIN=local; unset GOWORK
W=/tmp/trydiff/w.$$; V=/tmp/trydiff/v.$$
mkdir -p /tmp/trydiff "$V/evidence"; cp /verif/known_findings.json "$V/"
git -C /repo worktree add --detach "$W" HEAD -q
trap 'git -C /repo worktree remove --force "$W" 2>/dev/null; rm -rf "$W" "$V"; git -C /repo worktree prune' EXIT
git -C "$W" apply "$PATCH"
OUT=$(${BIN:-/verif/bin/verifcheck} ALL quick --repo "$W" --verif "$V" 2>&1 || true)
BAD=$(echo "$OUT" | grep -a "^ALL-RESULT" | grep -v "exit=0" || true)
NRES=$(echo "$OUT" | grep -a -c "^ALL-RESULT" || true)
if [ "$NRES" -lt 20 ]; then echo "== $L: CHECKER DID NOT RUN ($NRES results): $(echo "$OUT" | grep -a "BROKEN" | head -2 | cut -c1-200)"; exit 0; fi
if [ -z "$BAD" ]; then echo "== $L: all 20 checks silent"; else
  echo "== $L: $(echo $BAD | tr '\n' ' ')"
  echo "$OUT" | grep -a "VIOLATION\|CHECK-BROKEN" -A4 | grep -a "VIOLATION\|BROKEN\|^  at\|^  [a-zA-Z0-9\[(]" | grep -v "^  rule" | cut -c1-260 | head -${LINES_MAX:-12}
fi
