#!/bin/sh
# tools/automut.sh <ID> [jobs] : one-statement mutants of the functions check <ID> analysed (tools/automut),
# each run through the check's quick tier as an overlay. Prints the mutants the check stays silent on, for
# triage by reading: each is either behaviour the property does not speak about, or a gap in the check.
# Scratch only (/tmp/automut_out); nothing registered in MANIFEST.json uses this. BIN= overrides the binary.
set -e
ID="$1"; J="${2:-6}"
export GOFLAGS=-mod=mod GOPROXY=off GOSUMDB=off GOTOOLCHAIN=local; unset GOWORK
OUT=/tmp/automut_out/$ID; rm -rf "$OUT"; mkdir -p "$OUT"
(cd /verif/tools/automut && go build -o /tmp/automut . )
/tmp/automut "$ID" "$OUT"
BIN="${BIN:-/verif/bin/verifcheck}"
export ID BIN
ls "$OUT"/*.json | xargs -P "$J" -I{} sh -c '
  f="{}"; n=$(basename "$f" .json); v=/tmp/automut_out/v.$n; mkdir -p "$v/evidence"; cp /verif/known_findings.json "$v/"
  o=$("$BIN" "$ID" quick --repo /repo --verif "$v" --overlay "$f" 2>&1); rc=$?
  case $rc in
    0) echo "SILENT   $n" ;;
    1) echo "DETECTED $n $(echo "$o" | grep -a -m1 "^  rule" | cut -c1-60)" ;;
    *) if echo "$o" | grep -aq "load failed"; then echo "INVALID  $n"; else echo "BROKEN   $n $(echo "$o" | grep -a -m1 CHECK-BROKEN | cut -c1-120)"; fi ;;
  esac
  rm -rf "$v"' | sort > "$OUT.summary"
awk '{print $1}' "$OUT.summary" | sort | uniq -c
grep -a "^SILENT" "$OUT.summary" | while read s n; do printf "%s  " "$n"; python3 -c "import json,sys;print(json.load(open('$OUT/$n.json'))['why'])"; done
