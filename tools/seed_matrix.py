#!/usr/bin/env python3
"""Run every claimed check against every seeded change and record which obligations fire.

Each seeded patch is applied in a scratch worktree of /repo's HEAD under /tmp (removed afterwards);
the checker binary is pointed at that worktree (--repo) and at a scratch evidence directory, so
neither /repo nor /verif/evidence is touched. Result: /verif/seeded/MATRIX.json and MATRIX.md.
Documentation only: no registered check runs this.
"""
import json, os, shutil, subprocess, sys
from concurrent.futures import ThreadPoolExecutor

VERIF = os.path.dirname(os.path.dirname(os.path.abspath(__file__)))
REPO = "/repo"
ENV = dict(os.environ, GOFLAGS="-mod=mod", GOPROXY="off", GOSUMDB="off", GOTOOLCHAIN="local")
ENV.pop("GOWORK", None)
BIN = os.path.join(VERIF, "bin", "verifcheck")


def sh(cmd, cwd=None):
    p = subprocess.run(cmd, cwd=cwd, shell=True, env=ENV, stdout=subprocess.PIPE, stderr=subprocess.STDOUT, text=True)
    return p.returncode, p.stdout


def run(seed, checks):
    wt, ev = f"/tmp/mx/{seed}", f"/tmp/mxv/{seed}"
    shutil.rmtree(wt, ignore_errors=True)
    shutil.rmtree(ev, ignore_errors=True)
    os.makedirs(ev + "/evidence", exist_ok=True)
    shutil.copy(os.path.join(VERIF, "known_findings.json"), ev)
    sh("git worktree prune", REPO)
    rc, out = sh(f"git worktree add --detach {wt} HEAD", REPO)
    res = {}
    try:
        rc, out = sh(f"git apply {VERIF}/seeded/{seed}/patch.diff", wt)
        if rc != 0:
            return seed, {"error": "patch does not apply: " + out[-300:]}
        # one process, one load of the patched tree, every check (verifcheck ALL prints "ALL-RESULT <id> exit=<n>")
        rc_all, out = sh(f"{BIN} ALL quick --repo {wt} --verif {ev}")
        codes = {}
        for l in out.splitlines():
            if l.startswith("ALL-RESULT "):
                _, cid, ex = l.split()
                codes[cid] = int(ex.split("=")[1])
        if rc_all != 0 or not codes:
            return seed, {"error": "checker did not run: " + out[-300:]}
        for c in checks:
            rc = codes.get(c, 2)
            fired = []
            if rc == 1:
                try:
                    e = json.load(open(f"{ev}/evidence/{c}.json"))
                    for o in e["coverage"]["samples"]:
                        if o.get("status") == "violation":
                            fired.append(o["key"])
                except Exception as ex:  # noqa
                    fired.append("?" + repr(ex))
            if rc not in (0, 1):
                fired += [l[:300] for l in out.splitlines() if l.startswith("CHECK-BROKEN") and f"property={c}" in l]
            res[c] = {"exit": rc, "fired": fired}
    finally:
        sh(f"git worktree remove --force {wt}", REPO)
        shutil.rmtree(wt, ignore_errors=True)
        shutil.rmtree(ev, ignore_errors=True)
        sh("git worktree prune", REPO)
    return seed, res


def main():
    man = json.load(open(os.path.join(VERIF, "MANIFEST.json")))
    checks = sorted(c.get("property_id") or c.get("property") or c.get("id") for c in man["checks"])
    seeds = sys.argv[1:] or sorted(d for d in os.listdir(os.path.join(VERIF, "seeded")) if os.path.isdir(os.path.join(VERIF, "seeded", d)))
    out = {}
    mj = os.path.join(VERIF, "seeded", "MATRIX.json")
    if sys.argv[1:] and os.path.exists(mj):
        out = json.load(open(mj))  # explicit seeds: refresh only those rows
    with ThreadPoolExecutor(int(os.environ.get('MATRIX_JOBS', '3'))) as ex:
        for seed, res in ex.map(lambda s: run(s, checks), seeds):
            out[seed] = res
            caught = [c for c, v in res.items() if isinstance(v, dict) and v.get("exit") == 1]
            broken = [c for c, v in res.items() if isinstance(v, dict) and v.get("exit") not in (0, 1)]
            print(seed, "caught by", caught, "broken", broken, res.get("error", ""))
            sys.stdout.flush()
    json.dump(out, open(os.path.join(VERIF, "seeded", "MATRIX.json"), "w"), indent=1, sort_keys=True)
    lines = ["# Seeded changes x checks", "", "Produced by tools/seed_matrix.py at /repo HEAD " + sh("git rev-parse --short HEAD", REPO)[1].strip() + ". Every claimed check (quick tier) was run against every seeded change; a check not listed for a change exited 0 on it (exit 1 = VIOLATION; exit 2 = CHECK-BROKEN, e.g. an anchored construct is gone and the rule refuses to decide — listed as well).", "", "| seeded change (property it breaks) | checks that report it | obligations that fire |", "|---|---|---|"]
    for seed in sorted(out):
        res = out[seed]
        if "error" in res:
            lines.append(f"| {seed} | — | {res['error']} |")
            continue
        caught = [c for c, v in res.items() if v["exit"] in (1, 2)]
        fired = []
        for c in caught:
            for k in res[c]["fired"]:
                fired.append(f"{c}: {k}")
        lines.append(f"| {seed} | {', '.join(caught) or '**none**'} | " + "<br>".join(x.replace("|", "\\|") for x in fired) + " |")
    open(os.path.join(VERIF, "seeded", "MATRIX.md"), "w").write("\n".join(lines) + "\n")


if __name__ == "__main__":
    main()
